// dsk-facts: rustc_private driver that dumps a JSON description of the type-checked,
// MIR-lowered `datasketches` crate (functions, CFGs, resolved callees, evaluated statics,
// ADTs, impls). Used as RUSTC_WORKSPACE_WRAPPER under `cargo +nightly check`.
//
// Output: $DSK_FACTS_OUT (one write per process, only for the crate named $DSK_FACTS_CRATE,
// default "datasketches").
#![feature(rustc_private)]
#![allow(clippy::all)]

extern crate rustc_abi;
extern crate rustc_driver;
extern crate rustc_hir;
extern crate rustc_interface;
extern crate rustc_middle;
extern crate rustc_span;

mod json;
use json::J;

use rustc_driver::Compilation;
use rustc_hir::def::DefKind;
use rustc_hir::def_id::{DefId, LocalDefId};
use rustc_middle::mir::{
    self, AggregateKind, BasicBlock, Body, BorrowKind, CastKind, Const, ConstValue, Operand,
    Place, ProjectionElem, Rvalue, StatementKind, TerminatorKind,
};
use rustc_middle::ty::{self, Instance, Ty, TyCtxt, TypingEnv};
use rustc_span::Span;

struct Cb;

impl rustc_driver::Callbacks for Cb {
    fn after_analysis<'tcx>(
        &mut self,
        _compiler: &rustc_interface::interface::Compiler,
        tcx: TyCtxt<'tcx>,
    ) -> Compilation {
        let want = std::env::var("DSK_FACTS_CRATE").unwrap_or_else(|_| "datasketches".to_string());
        let krate = tcx.crate_name(rustc_hir::def_id::LOCAL_CRATE).to_string();
        if krate != want {
            return Compilation::Continue;
        }
        // only the lib target (crate type rlib/lib): tests/examples also are named differently
        let out = match std::env::var("DSK_FACTS_OUT") {
            Ok(o) => o,
            Err(_) => return Compilation::Continue,
        };
        let facts = extract(tcx, &krate);
        let mut s = String::with_capacity(64 << 20);
        facts.write(&mut s);
        let tmp = format!("{}.tmp.{}", out, std::process::id());
        std::fs::write(&tmp, s).expect("write facts");
        std::fs::rename(&tmp, &out).expect("rename facts");
        Compilation::Continue
    }
}

fn main() {
    let mut args: Vec<String> = std::env::args().collect();
    // RUSTC_WORKSPACE_WRAPPER: argv[1] is the path of the real rustc
    if args.len() > 1 && (args[1].ends_with("rustc") || args[1].contains("/rustc")) {
        args.remove(1);
    }
    rustc_driver::run_compiler(&args, &mut Cb);
}

struct Cx<'tcx> {
    tcx: TyCtxt<'tcx>,
}

fn extract<'tcx>(tcx: TyCtxt<'tcx>, krate: &str) -> J {
    let cx = Cx { tcx };
    let mut fns = Vec::new();
    let mut statics = Vec::new();
    let mut consts = Vec::new();
    let mut adts = Vec::new();
    let mut impls = Vec::new();

    for ldid in tcx.hir_body_owners() {
        let did = ldid.to_def_id();
        let kind = tcx.def_kind(did);
        match kind {
            DefKind::Fn | DefKind::AssocFn | DefKind::Closure => {
                if tcx.is_constructor(did) {
                    continue;
                }
                let body = tcx.optimized_mir(did);
                fns.push(cx.function(ldid, body, None));
                let promoted = tcx.promoted_mir(did);
                for (i, pb) in promoted.iter_enumerated() {
                    fns.push(cx.function(ldid, pb, Some(i.as_usize())));
                }
            }
            DefKind::Static { .. } => {
                statics.push(cx.static_item(did));
            }
            DefKind::Const { .. } | DefKind::AssocConst { .. } => {
                if let Some(j) = cx.const_item(did) {
                    consts.push(j);
                }
            }
            _ => {}
        }
    }

    // ADTs, impls, traits
    for id in tcx.hir_free_items() {
        let did = id.owner_id.to_def_id();
        match tcx.def_kind(did) {
            DefKind::Struct | DefKind::Enum | DefKind::Union => adts.push(cx.adt(did)),
            DefKind::Impl { .. } => impls.push(cx.impl_item(did)),
            _ => {}
        }
    }

    J::obj(vec![
        ("crate", J::s(krate)),
        (
            "cfg",
            J::obj(vec![
                ("debug_assertions", J::Bool(tcx.sess.opts.debug_assertions)),
                ("overflow_checks", J::Bool(tcx.sess.overflow_checks())),
            ]),
        ),
        ("functions", J::Arr(fns)),
        ("statics", J::Arr(statics)),
        ("consts", J::Arr(consts)),
        ("adts", J::Arr(adts)),
        ("impls", J::Arr(impls)),
    ])
}

impl<'tcx> Cx<'tcx> {
    fn path(&self, did: DefId) -> String {
        self.tcx.def_path_str(did)
    }

    fn span(&self, sp: Span) -> J {
        let sm = self.tcx.sess.source_map();
        let root = sp.source_callsite();
        let lo = sm.lookup_char_pos(root.lo());
        let file = match &lo.file.name {
            rustc_span::FileName::Real(r) => match r.local_path() {
                Some(p) => p.to_string_lossy().to_string(),
                None => format!("{:?}", lo.file.name),
            },
            other => format!("{:?}", other),
        };
        let mut v = vec![J::Str(file), J::Int(lo.line as i128)];
        if sp.from_expansion() {
            let ed = sp.ctxt().outer_expn_data();
            let name = match ed.kind {
                rustc_span::ExpnKind::Macro(_, name) => name.to_string(),
                rustc_span::ExpnKind::Desugaring(d) => format!("desugar:{:?}", d),
                _ => "expn".to_string(),
            };
            // collect full macro backtrace names (innermost first)
            let mut names = vec![name];
            let mut cur = ed.call_site;
            let mut guard = 0;
            while cur.from_expansion() && guard < 8 {
                let e2 = cur.ctxt().outer_expn_data();
                if let rustc_span::ExpnKind::Macro(_, n) = e2.kind {
                    names.push(n.to_string());
                }
                cur = e2.call_site;
                guard += 1;
            }
            v.push(J::Arr(names.into_iter().map(J::Str).collect()));
        }
        J::Arr(v)
    }

    fn ty(&self, t: Ty<'tcx>) -> J {
        J::Str(format!("{}", t))
    }

    fn function(&self, ldid: LocalDefId, body: &Body<'tcx>, promoted: Option<usize>) -> J {
        let tcx = self.tcx;
        let did = ldid.to_def_id();
        let kind = tcx.def_kind(did);
        let mut name = self.path(did);
        if let Some(i) = promoted {
            name = format!("{}::promoted[{}]", name, i);
        }
        let mut o: Vec<(&str, J)> = vec![("id", J::Str(name))];
        o.push(("kind", J::s(match kind {
            DefKind::Fn => "fn",
            DefKind::AssocFn => "method",
            DefKind::Closure => "closure",
            _ => "other",
        })));
        if promoted.is_some() {
            o.push(("promoted", J::Bool(true)));
        }
        o.push(("item_name", J::Str(tcx.opt_item_name(did).map(|s| s.to_string()).unwrap_or_default())));
        // owner impl / trait
        if matches!(kind, DefKind::AssocFn) {
            if let Some(imp) = tcx.impl_of_assoc(did) {
                let self_ty = tcx.type_of(imp).instantiate_identity().skip_norm_wip();
                o.push(("self_ty", self.ty(self_ty)));
                if let ty::Adt(ad, _) = self_ty.kind() {
                    o.push(("owner", J::Str(self.path(ad.did()))));
                }
                if let Some(tr) = tcx.impl_opt_trait_ref(imp) {
                    let tr = tr.instantiate_identity().skip_norm_wip();
                    o.push(("trait", J::Str(self.path(tr.def_id))));
                    o.push(("trait_ref", J::Str(format!("{}", tr))));
                }
            } else if let Some(tr) = tcx.trait_of_assoc(did) {
                o.push(("trait_decl", J::Str(self.path(tr))));
            }
        }
        if matches!(kind, DefKind::Fn | DefKind::AssocFn) {
            let vis = tcx.visibility(did);
            o.push(("pub", J::Bool(vis.is_public())));
            let ev = tcx.effective_visibilities(());
            o.push(("reachable", J::Bool(ev.is_reachable(ldid))));
            o.push(("exported", J::Bool(ev.is_exported(ldid))));
        }
        if matches!(kind, DefKind::Closure) {
            let parent = tcx.typeck_root_def_id(did);
            o.push(("parent", J::Str(self.path(parent))));
        }
        let generics = tcx.generics_of(did);
        let mut gs = Vec::new();
        for i in 0..generics.count() {
            let p = generics.param_at(i, tcx);
            gs.push(J::Str(p.name.to_string()));
        }
        o.push(("generics", J::Arr(gs)));
        o.push(("span", self.span(body.span)));
        o.push(("argc", J::Int(body.arg_count as i128)));

        // locals
        let mut names: Vec<Option<String>> = vec![None; body.local_decls.len()];
        let mut captured = Vec::new();
        for vdi in &body.var_debug_info {
            if let mir::VarDebugInfoContents::Place(p) = &vdi.value {
                if p.projection.is_empty() {
                    names[p.local.as_usize()] = Some(vdi.name.to_string());
                } else {
                    captured.push(J::Arr(vec![J::Str(vdi.name.to_string()), self.place(body, *p)]));
                }
            }
        }
        let mut locals = Vec::new();
        for (l, decl) in body.local_decls.iter_enumerated() {
            let mut lo = vec![("ty", self.ty(decl.ty))];
            if let Some(n) = &names[l.as_usize()] {
                lo.push(("name", J::Str(n.clone())));
            }
            if decl.mutability.is_mut() {
                lo.push(("mut", J::Bool(true)));
            }
            locals.push(J::obj(lo));
        }
        o.push(("locals", J::Arr(locals)));
        if !captured.is_empty() {
            o.push(("captures", J::Arr(captured)));
        }

        let tenv = TypingEnv::post_analysis(tcx, did);
        let mut blocks = Vec::new();
        for (_bb, data) in body.basic_blocks.iter_enumerated() {
            let mut stmts = Vec::new();
            for st in &data.statements {
                match &st.kind {
                    StatementKind::Assign(b) => {
                        let (pl, rv) = &**b;
                        stmts.push(J::Arr(vec![
                            J::s("="),
                            self.place(body, *pl),
                            self.rvalue(body, tenv, rv),
                            self.span(st.source_info.span),
                        ]));
                    }
                    StatementKind::SetDiscriminant { place, variant_index } => {
                        stmts.push(J::Arr(vec![
                            J::s("setdiscr"),
                            self.place(body, **place),
                            J::Int(variant_index.as_usize() as i128),
                            self.span(st.source_info.span),
                        ]));
                    }
                    StatementKind::Intrinsic(i) => {
                        stmts.push(J::Arr(vec![J::s("intrinsic"), J::Str(format!("{:?}", i))]));
                    }
                    _ => {}
                }
            }
            let term = data.terminator();
            let tj = self.terminator(body, tenv, term);
            let mut bo = vec![("s", J::Arr(stmts)), ("t", tj)];
            if data.is_cleanup {
                bo.push(("cleanup", J::Bool(true)));
            }
            blocks.push(J::obj(bo));
        }
        o.push(("blocks", J::Arr(blocks)));
        J::obj(o)
    }

    fn place(&self, body: &Body<'tcx>, p: Place<'tcx>) -> J {
        let tcx = self.tcx;
        let mut proj = Vec::new();
        let mut pty = mir::PlaceTy::from_ty(body.local_decls[p.local].ty);
        for elem in p.projection.iter() {
            match elem {
                ProjectionElem::Deref => proj.push(J::Arr(vec![J::s("*")])),
                ProjectionElem::Field(f, fty) => {
                    let mut fname = format!("{}", f.as_usize());
                    let mut owner = String::new();
                    if let ty::Adt(ad, _) = pty.ty.kind() {
                        let vidx = pty.variant_index.unwrap_or(rustc_abi::FIRST_VARIANT);
                        if ad.variants().len() > vidx.as_usize() {
                            let v = ad.variant(vidx);
                            if let Some(fd) = v.fields.get(f) {
                                fname = fd.name.to_string();
                            }
                        }
                        owner = self.path(ad.did());
                    }
                    proj.push(J::Arr(vec![
                        J::s("."),
                        J::Int(f.as_usize() as i128),
                        J::Str(fname),
                        J::Str(owner),
                        self.ty(fty),
                    ]));
                }
                ProjectionElem::Index(l) => {
                    proj.push(J::Arr(vec![J::s("[]"), J::Int(l.as_usize() as i128)]))
                }
                ProjectionElem::ConstantIndex { offset, min_length, from_end } => {
                    proj.push(J::Arr(vec![
                        J::s("[c]"),
                        J::Int(offset as i128),
                        J::Int(min_length as i128),
                        J::Bool(from_end),
                    ]))
                }
                ProjectionElem::Subslice { from, to, from_end } => proj.push(J::Arr(vec![
                    J::s("[..]"),
                    J::Int(from as i128),
                    J::Int(to as i128),
                    J::Bool(from_end),
                ])),
                ProjectionElem::Downcast(name, vidx) => proj.push(J::Arr(vec![
                    J::s("as"),
                    J::Str(name.map(|s| s.to_string()).unwrap_or_default()),
                    J::Int(vidx.as_usize() as i128),
                ])),
                ProjectionElem::OpaqueCast(_) => proj.push(J::Arr(vec![J::s("opaque")])),
                ProjectionElem::UnwrapUnsafeBinder(_) => proj.push(J::Arr(vec![J::s("unwrapbinder")])),
            }
            pty = pty.projection_ty(tcx, elem);
        }
        if proj.is_empty() {
            J::Int(p.local.as_usize() as i128)
        } else {
            J::Arr(vec![J::Int(p.local.as_usize() as i128), J::Arr(proj), self.ty(pty.ty)])
        }
    }

    fn operand(&self, body: &Body<'tcx>, tenv: TypingEnv<'tcx>, op: &Operand<'tcx>) -> J {
        match op {
            Operand::Copy(p) => J::Arr(vec![J::s("c"), self.place(body, *p)]),
            Operand::Move(p) => J::Arr(vec![J::s("m"), self.place(body, *p)]),
            Operand::Constant(c) => J::Arr(vec![J::s("k"), self.constant(tenv, &c.const_)]),
            Operand::RuntimeChecks(rc) => {
                J::Arr(vec![J::s("k"), J::obj(vec![("ty", J::s("bool")), ("rtcheck", J::Str(format!("{:?}", rc)))])])
            }
        }
    }

    fn scalar_to_j(&self, ty: Ty<'tcx>, si: ty::ScalarInt) -> Option<J> {
        let size = si.size();
        let bits = si.to_bits(size);
        Some(match ty.kind() {
            ty::Bool => J::Bool(bits != 0),
            ty::Char => J::Int(bits as i128),
            ty::Uint(_) => J::Int(bits as i128),
            ty::Int(_) => {
                let n = size.bits() as u32;
                let v = if n == 128 {
                    bits as i128
                } else {
                    let sh = 128 - n;
                    ((bits << sh) as i128) >> sh
                };
                J::Int(v)
            }
            ty::Float(ft) => match ft.bit_width() {
                32 => J::Float(f32::from_bits(bits as u32) as f64),
                64 => J::Float(f64::from_bits(bits as u64)),
                _ => return None,
            },
            _ => return None,
        })
    }

    fn constant(&self, tenv: TypingEnv<'tcx>, c: &Const<'tcx>) -> J {
        let tcx = self.tcx;
        let ty = c.ty();
        let mut o: Vec<(&str, J)> = vec![("ty", self.ty(ty))];
        if let ty::FnDef(did, args) = ty.kind() {
            o.push(("fn", J::Str(self.path(*did))));
            o.push(("args", J::Arr(args.iter().map(|a| J::Str(format!("{}", a))).collect())));
            return J::obj(o);
        }
        if let Const::Unevaluated(u, _) = c {
            o.push(("def", J::Str(self.path(u.def))));
            if let Some(p) = u.promoted {
                o.push(("promoted", J::Int(p.as_usize() as i128)));
            }
        }
        let is_scalarish = matches!(ty.kind(), ty::Bool | ty::Char | ty::Int(_) | ty::Uint(_) | ty::Float(_));
        if is_scalarish {
            if let Some(si) = c.try_eval_scalar_int(tcx, tenv) {
                if let Some(v) = self.scalar_to_j(ty, si) {
                    o.push(("v", v));
                }
            }
        } else if !matches!(c, Const::Unevaluated(u, _) if u.promoted.is_some()) {
            // try structured decode of small aggregate constants (e.g. Family::HLL)
            if let Ok(val) = c.eval(tcx, tenv, rustc_span::DUMMY_SP) {
                if let Some(j) = self.decode_constvalue(val, ty, 0) {
                    o.push(("v", j));
                }
            }
        }
        if !o.iter().any(|(k, _)| *k == "v") {
            let s = format!("{}", c);
            if s.len() < 200 {
                o.push(("s", J::Str(s)));
            }
        }
        J::obj(o)
    }

    fn decode_constvalue(&self, val: ConstValue, ty: Ty<'tcx>, depth: usize) -> Option<J> {
        let tcx = self.tcx;
        match val {
            ConstValue::Scalar(s) => {
                match s {
                    mir::interpret::Scalar::Int(si) => self.scalar_to_j(ty, si),
                    mir::interpret::Scalar::Ptr(ptr, _) => {
                        // reference to something: decode pointee if sized array/scalar
                        if let ty::Ref(_, inner, _) = ty.kind() {
                            let (prov, off) = ptr.into_raw_parts();
                            let aid = prov.alloc_id();
                            if let Some(rustc_middle::mir::interpret::GlobalAlloc::Memory(a)) = tcx.try_get_global_alloc(aid) {
                                return self.decode_alloc(a.inner(), off.bytes() as usize, *inner, depth + 1);
                            }
                            if let Some(rustc_middle::mir::interpret::GlobalAlloc::Static(sd)) = tcx.try_get_global_alloc(aid) {
                                return Some(J::obj(vec![("static", J::Str(self.path(sd)))]));
                            }
                        }
                        None
                    }
                }
            }
            ConstValue::ZeroSized => Some(J::Null),
            ConstValue::Slice { alloc_id, meta } => {
                if let ty::Ref(_, inner, _) = ty.kind() {
                    if let Some(rustc_middle::mir::interpret::GlobalAlloc::Memory(a)) = tcx.try_get_global_alloc(alloc_id) {
                        let a = a.inner();
                        match inner.kind() {
                            ty::Str => {
                                let bytes = a.inspect_with_uninit_and_ptr_outside_interpreter(0..meta as usize);
                                return Some(J::Str(String::from_utf8_lossy(bytes).to_string()));
                            }
                            ty::Slice(et) => {
                                return self.decode_array(a, 0, *et, meta as usize, depth + 1);
                            }
                            _ => {}
                        }
                    }
                }
                None
            }
            ConstValue::Indirect { alloc_id, offset } => {
                if let Some(rustc_middle::mir::interpret::GlobalAlloc::Memory(a)) = tcx.try_get_global_alloc(alloc_id) {
                    return self.decode_alloc(a.inner(), offset.bytes() as usize, ty, depth + 1);
                }
                None
            }
        }
    }

    fn decode_array(
        &self,
        alloc: &rustc_middle::mir::interpret::Allocation,
        off: usize,
        et: Ty<'tcx>,
        n: usize,
        depth: usize,
    ) -> Option<J> {
        let tcx = self.tcx;
        let tenv = TypingEnv::fully_monomorphized();
        let el = tcx.layout_of(tenv.as_query_input(et)).ok()?;
        let stride = el.size.bytes() as usize;
        let mut v = Vec::with_capacity(n);
        for i in 0..n {
            v.push(self.decode_alloc(alloc, off + i * stride, et, depth + 1)?);
        }
        Some(J::Arr(v))
    }

    fn decode_alloc(
        &self,
        alloc: &rustc_middle::mir::interpret::Allocation,
        off: usize,
        ty: Ty<'tcx>,
        depth: usize,
    ) -> Option<J> {
        if depth > 6 {
            return None;
        }
        let tcx = self.tcx;
        let tenv = TypingEnv::fully_monomorphized();
        let layout = tcx.layout_of(tenv.as_query_input(ty)).ok()?;
        let size = layout.size.bytes() as usize;
        if off + size > alloc.len() {
            return None;
        }
        let rd = |o: usize, n: usize| -> u128 {
            let b = alloc.inspect_with_uninit_and_ptr_outside_interpreter(o..o + n);
            let mut x: u128 = 0;
            for (i, by) in b.iter().enumerate() {
                x |= (*by as u128) << (8 * i);
            }
            x
        };
        match ty.kind() {
            ty::Bool => Some(J::Bool(rd(off, 1) != 0)),
            ty::Char | ty::Uint(_) => Some(J::Int(rd(off, size) as i128)),
            ty::Int(_) => {
                let bits = rd(off, size);
                let n = (size * 8) as u32;
                let v = if n == 128 { bits as i128 } else { ((bits << (128 - n)) as i128) >> (128 - n) };
                Some(J::Int(v))
            }
            ty::Float(ft) => match ft.bit_width() {
                32 => Some(J::Float(f32::from_bits(rd(off, 4) as u32) as f64)),
                64 => Some(J::Float(f64::from_bits(rd(off, 8) as u64))),
                _ => None,
            },
            ty::Array(et, n) => {
                let n = n.try_to_target_usize(tcx)? as usize;
                self.decode_array(alloc, off, *et, n, depth)
            }
            ty::Tuple(ts) => {
                let mut v = Vec::new();
                for (i, t) in ts.iter().enumerate() {
                    let fo = layout.fields.offset(i).bytes() as usize;
                    v.push(self.decode_alloc(alloc, off + fo, t, depth + 1)?);
                }
                Some(J::Arr(v))
            }
            ty::Adt(ad, args) if ad.is_struct() => {
                let mut o = Vec::new();
                for (i, fd) in ad.non_enum_variant().fields.iter().enumerate() {
                    let fty = fd.ty(tcx, args);
                    let fo = layout.fields.offset(i).bytes() as usize;
                    let v = self.decode_alloc(alloc, off + fo, fty, depth + 1).unwrap_or(J::Null);
                    o.push((fd.name.to_string(), v));
                }
                Some(J::Obj(o))
            }
            ty::Ref(_, inner, _) | ty::RawPtr(inner, _) => {
                // pointer: find provenance at off
                let ptr_size = tcx.data_layout.pointer_size().bytes() as usize;
                let prov = alloc.provenance().ptrs().get(&rustc_abi::Size::from_bytes(off as u64))?;
                let aid = prov.alloc_id();
                let target_off = rd(off, ptr_size) as usize;
                match tcx.try_get_global_alloc(aid)? {
                    rustc_middle::mir::interpret::GlobalAlloc::Memory(a) => {
                        let a = a.inner();
                        match inner.kind() {
                            ty::Slice(et) => {
                                let n = rd(off + ptr_size, ptr_size) as usize;
                                self.decode_array(a, target_off, *et, n, depth + 1)
                            }
                            ty::Str => {
                                let n = rd(off + ptr_size, ptr_size) as usize;
                                let b = a.inspect_with_uninit_and_ptr_outside_interpreter(target_off..target_off + n);
                                Some(J::Str(String::from_utf8_lossy(b).to_string()))
                            }
                            _ => self.decode_alloc(a, target_off, *inner, depth + 1),
                        }
                    }
                    rustc_middle::mir::interpret::GlobalAlloc::Static(sd) => {
                        Some(J::obj(vec![("static", J::Str(self.path(sd)))]))
                    }
                    _ => None,
                }
            }
            _ => None,
        }
    }

    fn rvalue(&self, body: &Body<'tcx>, tenv: TypingEnv<'tcx>, rv: &Rvalue<'tcx>) -> J {
        match rv {
            Rvalue::Use(op, _) => J::Arr(vec![J::s("use"), self.operand(body, tenv, op)]),
            Rvalue::Repeat(op, n) => J::Arr(vec![
                J::s("repeat"),
                self.operand(body, tenv, op),
                match n.try_to_target_usize(self.tcx) {
                    Some(v) => J::Int(v as i128),
                    None => J::Str(format!("{}", n)),
                },
            ]),
            Rvalue::Ref(_, bk, p) => J::Arr(vec![
                J::s("ref"),
                J::s(match bk {
                    BorrowKind::Shared => "shared",
                    BorrowKind::Fake(_) => "fake",
                    BorrowKind::Mut { .. } => "mut",
                }),
                self.place(body, *p),
            ]),
            Rvalue::ThreadLocalRef(d) => J::Arr(vec![J::s("tls"), J::Str(self.path(*d))]),
            Rvalue::RawPtr(k, p) => J::Arr(vec![J::s("rawptr"), J::Str(format!("{:?}", k)), self.place(body, *p)]),
            Rvalue::Cast(k, op, ty) => {
                let ks = match k {
                    CastKind::IntToInt => "IntToInt".to_string(),
                    CastKind::FloatToInt => "FloatToInt".to_string(),
                    CastKind::IntToFloat => "IntToFloat".to_string(),
                    CastKind::FloatToFloat => "FloatToFloat".to_string(),
                    CastKind::Transmute => "Transmute".to_string(),
                    CastKind::PtrToPtr => "PtrToPtr".to_string(),
                    CastKind::FnPtrToPtr => "FnPtrToPtr".to_string(),
                    CastKind::PointerCoercion(pc, _) => format!("Coerce:{:?}", pc),
                    other => format!("{:?}", other),
                };
                let from = op.ty(&body.local_decls, self.tcx);
                J::Arr(vec![J::s("cast"), J::Str(ks), self.operand(body, tenv, op), self.ty(from), self.ty(*ty)])
            }
            Rvalue::BinaryOp(op, b) => {
                let (l, r) = &**b;
                J::Arr(vec![
                    J::s("bin"),
                    J::Str(format!("{:?}", op)),
                    self.operand(body, tenv, l),
                    self.operand(body, tenv, r),
                ])
            }
            Rvalue::UnaryOp(op, a) => {
                J::Arr(vec![J::s("un"), J::Str(format!("{:?}", op)), self.operand(body, tenv, a)])
            }
            Rvalue::Discriminant(p) => J::Arr(vec![J::s("discr"), self.place(body, *p)]),
            Rvalue::Aggregate(k, ops) => {
                let kind = match &**k {
                    AggregateKind::Array(t) => J::Arr(vec![J::s("array"), self.ty(*t)]),
                    AggregateKind::Tuple => J::Arr(vec![J::s("tuple")]),
                    AggregateKind::Adt(did, vidx, _args, _, _) => {
                        let ad = self.tcx.adt_def(*did);
                        let v = ad.variant(*vidx);
                        J::Arr(vec![
                            J::s("adt"),
                            J::Str(self.path(*did)),
                            J::Str(v.name.to_string()),
                            J::Int(vidx.as_usize() as i128),
                            J::Arr(v.fields.iter().map(|f| J::Str(f.name.to_string())).collect()),
                        ])
                    }
                    AggregateKind::Closure(did, _) => J::Arr(vec![J::s("closure"), J::Str(self.path(*did))]),
                    AggregateKind::Coroutine(did, _) => J::Arr(vec![J::s("coroutine"), J::Str(self.path(*did))]),
                    AggregateKind::CoroutineClosure(did, _) => {
                        J::Arr(vec![J::s("coroutineclosure"), J::Str(self.path(*did))])
                    }
                    AggregateKind::RawPtr(t, _) => J::Arr(vec![J::s("rawptr"), self.ty(*t)]),
                };
                J::Arr(vec![
                    J::s("agg"),
                    kind,
                    J::Arr(ops.iter().map(|o| self.operand(body, tenv, o)).collect()),
                ])
            }
            Rvalue::CopyForDeref(p) => J::Arr(vec![J::s("use"), J::Arr(vec![J::s("c"), self.place(body, *p)])]),
            Rvalue::WrapUnsafeBinder(op, _) => J::Arr(vec![J::s("use"), self.operand(body, tenv, op)]),
        }
    }

    fn bb(&self, b: BasicBlock) -> J {
        J::Int(b.as_usize() as i128)
    }

    fn terminator(&self, body: &Body<'tcx>, tenv: TypingEnv<'tcx>, term: &mir::Terminator<'tcx>) -> J {
        let tcx = self.tcx;
        let sp = self.span(term.source_info.span);
        match &term.kind {
            TerminatorKind::Goto { target } => J::Arr(vec![J::s("goto"), self.bb(*target)]),
            TerminatorKind::SwitchInt { discr, targets } => {
                let mut arms = Vec::new();
                for (v, t) in targets.iter() {
                    arms.push(J::Arr(vec![J::Int(v as i128), self.bb(t)]));
                }
                J::Arr(vec![
                    J::s("switch"),
                    self.operand(body, tenv, discr),
                    J::Arr(arms),
                    self.bb(targets.otherwise()),
                    self.ty(discr.ty(&body.local_decls, tcx)),
                    sp,
                ])
            }
            TerminatorKind::UnwindResume => J::Arr(vec![J::s("resume")]),
            TerminatorKind::UnwindTerminate(_) => J::Arr(vec![J::s("terminate")]),
            TerminatorKind::Return => J::Arr(vec![J::s("return"), sp]),
            TerminatorKind::Unreachable => J::Arr(vec![J::s("unreachable")]),
            TerminatorKind::Drop { place, target, .. } => {
                J::Arr(vec![J::s("drop"), self.place(body, *place), self.bb(*target)])
            }
            TerminatorKind::Call { func, args, destination, target, fn_span, .. } => {
                let mut o: Vec<(&str, J)> = Vec::new();
                let fty = func.ty(&body.local_decls, tcx);
                match fty.kind() {
                    ty::FnDef(did, gargs) => {
                        o.push(("decl", J::Str(self.path(*did))));
                        let mut resolved = false;
                        if let Ok(Some(inst)) = Instance::try_resolve(tcx, tenv, *did, gargs) {
                            let rdid = inst.def_id();
                            o.push(("callee", J::Str(self.path(rdid))));
                            o.push(("gargs", J::Arr(inst.args.iter().map(|a| J::Str(format!("{}", a))).collect())));
                            match inst.def {
                                ty::InstanceKind::Item(_) => {}
                                other => o.push(("inst", J::Str(format!("{:?}", other).chars().take(120).collect()))),
                            }
                            o.push(("local", J::Bool(rdid.is_local())));
                            resolved = true;
                        }
                        if !resolved {
                            o.push(("callee", J::Str(self.path(*did))));
                            o.push(("gargs", J::Arr(gargs.iter().map(|a| J::Str(format!("{}", a))).collect())));
                            o.push(("unresolved", J::Bool(true)));
                            if let Some(tr) = tcx.trait_of_assoc(*did) {
                                o.push(("trait", J::Str(self.path(tr))));
                            }
                        }
                    }
                    _ => {
                        o.push(("indirect", self.operand(body, tenv, func)));
                        o.push(("fty", self.ty(fty)));
                    }
                }
                o.push(("args", J::Arr(args.iter().map(|a| self.operand(body, tenv, &a.node)).collect())));
                o.push(("dest", self.place(body, *destination)));
                o.push(("target", match target { Some(t) => self.bb(*t), None => J::Null }));
                o.push(("span", self.span(*fn_span)));
                J::Arr(vec![J::s("call"), J::obj(o)])
            }
            TerminatorKind::TailCall { .. } => J::Arr(vec![J::s("tailcall")]),
            TerminatorKind::Assert { cond, expected, msg, target, .. } => {
                use rustc_middle::mir::AssertKind::*;
                let (kind, ops): (String, Vec<J>) = match &**msg {
                    BoundsCheck { len, index } => (
                        "BoundsCheck".into(),
                        vec![self.operand(body, tenv, len), self.operand(body, tenv, index)],
                    ),
                    Overflow(op, l, r) => (
                        format!("Overflow:{:?}", op),
                        vec![self.operand(body, tenv, l), self.operand(body, tenv, r)],
                    ),
                    OverflowNeg(o) => ("OverflowNeg".into(), vec![self.operand(body, tenv, o)]),
                    DivisionByZero(o) => ("DivisionByZero".into(), vec![self.operand(body, tenv, o)]),
                    RemainderByZero(o) => ("RemainderByZero".into(), vec![self.operand(body, tenv, o)]),
                    other => (format!("{:?}", other).chars().take(60).collect(), vec![]),
                };
                J::Arr(vec![
                    J::s("assert"),
                    self.operand(body, tenv, cond),
                    J::Bool(*expected),
                    J::Str(kind),
                    J::Arr(ops),
                    self.bb(*target),
                    sp,
                ])
            }
            TerminatorKind::FalseEdge { real_target, .. } => J::Arr(vec![J::s("goto"), self.bb(*real_target)]),
            TerminatorKind::FalseUnwind { real_target, .. } => J::Arr(vec![J::s("goto"), self.bb(*real_target)]),
            other => J::Arr(vec![J::s("other"), J::Str(format!("{:?}", other).chars().take(80).collect())]),
        }
    }

    fn static_item(&self, did: DefId) -> J {
        let tcx = self.tcx;
        let ty = tcx.normalize_erasing_regions(TypingEnv::fully_monomorphized(), tcx.type_of(did).instantiate_identity());
        let mut o = vec![("id", J::Str(self.path(did))), ("ty", self.ty(ty))];
        if let Ok(alloc) = tcx.eval_static_initializer(did) {
            if let Some(v) = self.decode_alloc(alloc.inner(), 0, ty, 0) {
                o.push(("v", v));
            }
        }
        o.push(("span", self.span(tcx.def_span(did))));
        J::obj(o)
    }

    fn const_item(&self, did: DefId) -> Option<J> {
        let tcx = self.tcx;
        if tcx.generics_of(did).requires_monomorphization(tcx) {
            return None;
        }
        let ty = tcx.normalize_erasing_regions(TypingEnv::fully_monomorphized(), tcx.type_of(did).instantiate_identity());
        let mut o = vec![("id", J::Str(self.path(did))), ("ty", self.ty(ty))];
        if let Ok(val) = tcx.const_eval_poly(did) {
            if let Some(v) = self.decode_constvalue(val, ty, 0) {
                o.push(("v", v));
            }
        }
        o.push(("span", self.span(tcx.def_span(did))));
        Some(J::obj(o))
    }

    fn adt(&self, did: DefId) -> J {
        let tcx = self.tcx;
        let ad = tcx.adt_def(did);
        let mut variants = Vec::new();
        for v in ad.variants().iter() {
            let mut fields = Vec::new();
            for f in v.fields.iter() {
                let fty = tcx.type_of(f.did).instantiate_identity().skip_norm_wip();
                fields.push(J::Arr(vec![J::Str(f.name.to_string()), self.ty(fty)]));
            }
            variants.push(J::obj(vec![("name", J::Str(v.name.to_string())), ("fields", J::Arr(fields))]));
        }
        let mut discrs = Vec::new();
        if ad.is_enum() {
            for (_i, d) in ad.discriminants(tcx) {
                discrs.push(J::Int(d.val as i128));
            }
        }
        J::obj(vec![
            ("id", J::Str(self.path(did))),
            ("kind", J::s(if ad.is_enum() { "enum" } else if ad.is_struct() { "struct" } else { "union" })),
            ("pub", J::Bool(tcx.visibility(did).is_public())),
            ("variants", J::Arr(variants)),
            ("discrs", J::Arr(discrs)),
        ])
    }

    fn impl_item(&self, did: DefId) -> J {
        let tcx = self.tcx;
        let self_ty = tcx.type_of(did).instantiate_identity().skip_norm_wip();
        let mut o = vec![("self_ty", self.ty(self_ty))];
        if let Some(tr) = tcx.impl_opt_trait_ref(did) {
            let tr = tr.instantiate_identity().skip_norm_wip();
            o.push(("trait", J::Str(self.path(tr.def_id))));
            o.push(("trait_ref", J::Str(format!("{}", tr))));
        }
        let mut items = Vec::new();
        for it in tcx.associated_items(did).in_definition_order() {
            items.push(J::Arr(vec![
                J::Str(it.name().to_string()),
                J::Str(self.path(it.def_id)),
                J::Str(format!("{:?}", it.kind).chars().take(30).collect()),
            ]));
        }
        o.push(("items", J::Arr(items)));
        J::obj(o)
    }
}
